"""Per-property configuration of ./check (what to build, what to audit, what is trusted)."""

COMMON_TRUSTED = [
    "Lean 4.33.0 kernel (thorough tier: re-checked by leanchecker); axioms allowed: propext, Classical.choice, Quot.sound",
    "go/extract (T1 translator, T2 fact extractor): trusted to mirror the recognised Go subset; validated by the correspondence on every run",
    "go/harness generators, fakes and canonicalisation; model driver line protocol",
]

PROPS = {
    "C04": {
        "lean_targets": ["MosdnsVerif.Props.C04"],
        "obligation_files": ["MosdnsVerif/Props/C04.lean", "MosdnsVerif/Refine/C04.lean"],
        "namespaces": ["Props.C04", "Refine.C04"],
        "driver": "drv_C04",
        "gen_functions": ["getMsgKey"],
        "level": "proof",
        "level_text": "Machine-checked proof (Lean 4) that the cache key regenerated from getMsgKey is injective on cacheable queries over all types, classes, flag sets and names, empty exactly for bypassing queries, and that any store/flush history serves an entry only to the same question; tied to the source by the T1 translation (re-proved equal to the model on every run) and by differential runs of getMsgKey and cache.Exec (incl. dump/load_dump).",
        "level_note": "Trusted: Lean kernel; go/extract translator (validated by the correspondence); miekg/dns accessors; the concurrent store's exactness is C11. The theorem is about the model; sampling ties it to the code.",
        "technique": "Lean 4 proof: T1-regenerated definition refined to a model + injectivity/invariant theorems; differential correspondence",
        "trusted": [
            "modelled, not verified: miekg/dns field access (Question[0], IsEdns0().Do()); the concurrent store (exactness is C11)",
        ],
        "assumptions": [
            "AD/CD/DO are those of the message the cache plugin sees (qCtx.Q()); the client's own DO bit is terminated by C15",
            "the key's name is the presentation-format string miekg/dns hands to the plugin",
        ],
        "explanation": "Gen.getMsgKey is regenerated from plugin/executable/cache/utils.go, proved equal to Model.C04.msgKey, which is proved injective on cacheable queries; the correspondence runs getMsgKey and cache.Exec on one-attribute variants.",
    },
    "C17": {
        "lean_targets": ["MosdnsVerif.Props.C17"],
        "obligation_files": ["MosdnsVerif/Props/C17.lean", "MosdnsVerif/Refine/C17.lean"],
        "namespaces": ["Props.C17", "Refine.C17"],
        "driver": "drv_C17",
        "gen_functions": ["msgTruncated", "udpWithFallbackExchange"],
        "level": "proof",
        "level_text": "Machine-checked proof (Lean 4) over definitions regenerated from pkg/upstream: msgTruncated is the TC bit for all 256 flag bytes; udpWithFallback sends the same query to TCP exactly when the UDP reply has TC set and returns the TCP outcome, otherwise returns the UDP reply untouched without using TCP - for arbitrary UDP/TCP behaviours (function parameters). Tied to the code by regeneration (T1) and by runs of the real upstream against a UDP+TCP loopback server over every flag byte.",
        "level_note": "Trusted: Lean kernel (one `decide +kernel` over the 256 values of a byte, no extra axiom); go/extract with its statement table for the two transport calls (changes to those statements stop translation); Go net stack on loopback. Reply sizes < 3 bytes cannot occur (readMsgUdp drops < 12).",
        "technique": "Lean 4 proof over T1-regenerated definitions + differential runs against loopback UDP/TCP servers",
        "trusted": ["modelled, not verified: the UDP pipeline transport and the TCP reuse transport themselves (C01/C02/C07/C08); loopback sockets"],
        "assumptions": ["UDP replies have at least 12 bytes (shorter datagrams are dropped by readMsgUdp)"],
        "explanation": "Gen.msgTruncated / Gen.udpWithFallbackExchange regenerated and proved equal to Model.C17; the correspondence drives upstream.NewUpstream(udp://) against harness listeners and compares what the caller got and whether TCP was used.",
    },
    "C16": {
        "lean_targets": ["MosdnsVerif.Props.C16"],
        "obligation_files": ["MosdnsVerif/Props/C16.lean", "MosdnsVerif/Refine/C16.lean", "MosdnsVerif/Lemmas/Stream.lean", "MosdnsVerif/Lemmas/Bits.lean"],
        "namespaces": ["Props.C16", "Refine.C16", "Lemmas.Stream", "Lemmas.Bits"],
        "driver": "drv_C16",
        "gen_functions": ["copyMsgWithLenHdr", "writeRawMsgToTCP", "readRawMsgFromTCP"],
        "level": "proof",
        "level_text": "Machine-checked proof (Lean 4) over the framing functions regenerated from net_io.go / transport/utils.go: write-then-read returns any 13..65535-byte message unchanged for every chunking of the stream (induction over the chunk list), sequences of frames decode to the same list, >65535 is refused before any write, announced<=12 / short / arbitrary streams give an error and a successful read returns exactly the announced size. Tied to the code by regeneration and by differential runs of the real readers/writers under seeded chunkings; non-interleaving of concurrent server replies is exercised on ServeTCP with a wrapped connection.",
        "level_note": "Partial for the last sentence of the property: that concurrently written replies do not interleave rests on one Write per reply and on Write being atomic per call (Go runtime), which the model states but only the ServeTCP runs observe. Absence of panics is proved for the model (total functions) and observed under recover for the code. io.ReadFull and pool.GetBuf are modelled (Go.readFull, Go.make).",
        "technique": "Lean 4 proof (induction over chunked streams) on T1-regenerated framing functions + differential correspondence + concurrent ServeTCP runs",
        "trusted": ["modelled, not verified: io.ReadFull semantics (Go.readFull), pool.GetBuf (exact-size buffer), miekg PackBuffer, net.Conn.Write atomicity per call"],
        "assumptions": ["a reply handed to one Write call is not interleaved with another Write on the same connection (Go net / crypto/tls contract)"],
        "explanation": "Gen.* framing functions proved equal to Model.C16 and the round-trip / exact-size / error theorems proved for every chunking; correspondence runs the real functions on the same streams and chunkings.",
    },
    "C18": {
        "lean_targets": ["MosdnsVerif.Props.C18"],
        "obligation_files": ["MosdnsVerif/Props/C18.lean", "MosdnsVerif/Refine/C18.lean"],
        "namespaces": ["Props.C18", "Refine.C18"],
        "driver": "drv_C18",
        "gen_functions": ["tryTrimIpv6Brackets"],
        "gen_facts": ["portUdp", "portTcp", "portTls", "portHttps", "portQuic", "hostIsTrimmedUrlHost"],
        "level": "proof",
        "level_text": "Machine-checked proof (Lean 4): for every address of the grammar (hostname/IPv4 with or without port, bracketed IPv6 with or without port, bare IPv6, each optionally overridden by dial_addr in its four forms) the dial target computed by parseDialAddr on the bracket-trimmed URL host is exactly the host and port written (scheme default when omitted), an unparsable port is rejected, and the default TLS server name is the URL host. tryTrimIpv6Brackets is regenerated from source (T1) and the default ports are regenerated facts (T2); net.SplitHostPort enters through an explicit contract that the correspondence checks against the real library. Black-box runs of NewUpstream behind a SOCKS5 observer confirm the dialled host, port and SNI.",
        "level_note": "Trusted: net/url host extraction, net.SplitHostPort (contract checked by sampling against the real function), strconv.ParseUint, golang.org/x/net/proxy, crypto/tls SNI behaviour. Interpretation: dial_addr replaces host and port (scheme default if it has no port). QUIC/HTTP3 dialling is covered at the parseDialAddr level only.",
        "technique": "Lean 4 proof over T1/T2-regenerated definitions under an explicit stdlib contract + differential correspondence + SOCKS5/TLS/UDP black-box observation",
        "trusted": ["modelled, not verified: net/url.Parse (Host extraction), net.SplitHostPort (SplitContract), strconv.ParseUint, socks5 client, crypto/tls"],
        "assumptions": ["dial_addr, when set, fully replaces host and port of the URL (port defaults to the scheme default)", "port 0 is outside the grammar (it is treated as 'no port')"],
        "explanation": "target/serverName theorems over Gen.tryTrimIpv6Brackets and Model.C18 mirrors under SplitContract; driver runs the executable model; harness diffs the shims and observes real dials.",
    },
    "C13": {
        "lean_targets": ["MosdnsVerif.Props.C13"],
        "obligation_files": ["MosdnsVerif/Props/C13.lean"],
        "namespaces": ["Props.C13"],
        "driver": "drv_C13",
        "gen_facts": ["c13SortSameBaseCmp", "c13SortAppendsWhenNotContained", "c13SortCallsSort", "c13SortReturns", "c13LessByAddr", "c13ContainsCmp", "c13ContainsShape", "c13AppendMasksTo6", "c13AppendV4BitsOffset"],
        "level": "proof",
        "level_text": "Machine-checked proof (Lean 4): for every multiset of stored (masked) prefixes and every ordering sorted by base address - whatever the unstable sort and the load order did - the merge loop of Sort followed by the last-base-at-or-before lookup of Contains answers true exactly when some prefix covers the address (induction over the merge with a chain invariant; laminarity of aligned power-of-two blocks proved from divisibility), and IPv4 prefixes/addresses behave as their IPv4-mapped forms. The operators, statement shapes and the +96 offset the model was written from are regenerated facts with a guard theorem; differential runs load the same sets through Append, the text loader and ip_set and compare with the model and with an independent bit-level oracle.",
        "level_note": "Trusted: net/netip parsing, Masked, Compare and Contains (the model defines them arithmetically on 128-bit naturals; the correspondence compares), sort.Sort producing an ordering by Less, and that the binary search returns the last index whose base is <= the address on a list sorted by base (the model uses that specification; the loop's comparison operator and assignments are guarded facts). Zoned addresses are outside the model.",
        "technique": "Lean 4 proof (merge-loop invariant + laminar blocks) with T2-regenerated facts + differential correspondence",
        "trusted": ["modelled, not verified: net/netip (ParsePrefix, Masked, Compare, Contains), sort.Sort, the binary-search loop (specified as 'last base <= address')"],
        "assumptions": ["addresses carry no IPv6 zone"],
        "explanation": "Model.C13 mergeStep/containsRev over intervals; Props.C13.contains_correct; guard over Gen.Facts.c13*.",
    },
}

# Reasons for properties that are not claimed (yet).
NOT_CLAIMED = {}
