#!/bin/bash
# Unchanged-tree stress: runs the harness binaries of the last ./check builds directly, several at a time, over many
# seeds, and prints every run that reports an oracle failure (the timing-sensitive part of the checks). Not a registered check.
#   ./stress.sh "101 102 103" [parallel] [props...]
cd "$(dirname "$0")"
seeds=${1:-"101 102 103 104 105 106"}
par=${2:-8}
shift; shift
props=${@:-$(python3 -c "import props; print(' '.join(props.PROPS))")}
out=/tmp/verif-stress.$$
mkdir -p $out
jobs=()
for s in $seeds; do for p in $props; do jobs+=("$p:$s"); done; done
printf '%s\n' "${jobs[@]}" | xargs -P $par -I{} bash -c 'j={}; p=${j%%:*}; s=${j##*:}; d='$out'/$p-$s; mkdir -p $d; t0=$(date +%s); ./.build/harness_$p $p -seed $s -tier quick -out $d > $d/log 2>&1; rc=$?; n=$(python3 -c "import json,sys; print(len(json.load(open(\"$d/meta.json\")).get(\"oracle_fails\",[])))" 2>/dev/null || echo "?"); if [ "$rc" != 0 ] || [ "$n" != 0 ]; then echo "== $p seed $s rc=$rc oracle_failures=$n ($(( $(date +%s)-t0 ))s)"; python3 -c "import json; [print(\"   \",f[\"what\"][:160], str(f[\"replay\"])[:300]) for f in json.load(open(\"$d/meta.json\")).get(\"oracle_fails\",[])[:3]]" 2>/dev/null; tail -3 $d/log | cut -c1-300; fi'
echo "stress done: ${#jobs[@]} runs"
rm -rf $out
