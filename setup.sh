#!/bin/bash
# MANIFEST.setup_cmd: build the framework from files on disk only (offline).
set -e
cd "$(dirname "$0")"
export GOFLAGS=-mod=mod GOPROXY=off GOSUMDB=off GOTOOLCHAIN=local
mkdir -p .build .work evidence
# T1/T2 extractor, first regeneration of lean/MosdnsVerif/Gen
(cd go/extract && go build -o ../../.build/extract .)
./.build/extract -repo "${VERIF_REPO:-/repo}" -out lean/MosdnsVerif/Gen || true
# Lean: property modules, audit tool, model drivers
TARGETS=$(python3 -c "
import props
t=['Audit.Tool']
for p,c in props.PROPS.items():
    t+=c['lean_targets']+[c['driver']]
print(' '.join(dict.fromkeys(t)))")
(cd lean && lake build $TARGETS) || echo "setup: lake build reported failures (the checks will report them per property)"
# Go harness: warm the build cache (each check rebuilds its own binary)
cp /repo/go.sum go/harness/go.sum 2>/dev/null || true
(cd go/harness && go build -tags verif,pall -o ../../.build/harness_all .) || echo "setup: harness build failed (the checks will report it per property)"
echo "setup done"
